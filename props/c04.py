"""C04 — a tick patch replays to exactly the state the tick produced."""
import json, os, copy
import vf

PROP = "C04"
THEOREMS = ["diff_apply_exact", "diff_apply_complete", "diff_apply_tick", "diff_apply_tick_dangling_refuted",
            "diff_canonical", "patch_constructor_identity", "WF_preserved_partial", "WF_preserved_refuted", "apply_err_is_err",
            "apply_ok_means_all_applied"]
PRE = ("From Coq Require Import List NArith Bool.\n"
       "From Echo Require Import Base.FinMap Base.Order Model.Patch.\n"
       "Import ListNotations.\nOpen Scope N_scope.\n"
       # printing a 256-bit N costs ~1 s in coqc: ids leave the model as little-endian 32-bit limbs
       "Fixpoint limbs (fuel : nat) (n : N) : list N := match fuel with O => [] | S f =>\n"
       "  if n <? 4294967296 then [n] else (N.land n 4294967295) :: limbs f (N.shiftr n 32) end.\n"
       "Definition L := limbs 9.\n"
       "Definition kt (k : akey) := (ak_edge k, ak_beta k, L (ak_warp k), L (ak_id k)).\n"
       "Definition kt0 := (false, false, L 0, L 0).\n"
       "Definition fa (v : att) := match v with Atom t d => (0, L t, d) | Descend w => (1, L w, []) end.\n"
       "Inductive fop := FP (k : bool*bool*list N*list N) (cw cr : list N) (i : option (list N)) | FI (w r : list N) (p : option (bool*bool*list N*list N))\n"
       " | FX (w : list N) | FN (w n t : list N) | Fn (w n : list N) | FE (w e f t ty : list N) | Fe (w f e : list N)\n"
       " | FA (k : bool*bool*list N*list N) (v : option (N * list N * list N)).\n"
       "Definition fo (o : op) : fop := match o with OpenPortal k cw cr i => FP (kt k) (L cw) (L cr) (option_map L i)\n"
       " | UpsertWI w r p => FI (L w) (L r) (option_map kt p)\n"
       " | DeleteWI w => FX (L w) | UpsertNode w n t => FN (L w) (L n) (L t) | DeleteNode w n => Fn (L w) (L n)\n"
       " | UpsertEdge w e f t ty => FE (L w) (L e) (L f) (L t) (L ty)\n"
       " | DeleteEdge w f e => Fe (L w) (L f) (L e) | SetAtt k v => FA (kt k) (option_map fa v) end.\n"
       "Definition fe (e : err) := match e with MissingWarp w => (1, L w, L 0, kt0) | MissingNode w n => (2, L w, L n, kt0)\n"
       " | MissingEdge w x => (3, L w, L x, kt0) | NodeNotIsolated w n => (4, L w, L n, kt0) | InvalidAttachmentKey k => (5, L 0, L 0, kt k)\n"
       " | PortalInitRequired => (6, L 0, L 0, kt0) | PortalInvariantViolation => (7, L 0, L 0, kt0) end.\n"
       "Definition fs (st : state) := (map (fun ws => (L (fst ws), (map (fun x => (L (fst x), L (snd x))) (s_nodes (snd ws)),\n"
       "    map (fun x => (L (fst x), (L (e_from (snd x)), L (e_to (snd x)), L (e_ty (snd x))))) (s_edges (snd ws)),\n"
       "    map (fun x => (L (fst x), fa (snd x))) (s_natt (snd ws)), map (fun x => (L (fst x), fa (snd x))) (s_eatt (snd ws))))) (st_stores st),\n"
       "  map (fun wm => (L (fst wm), (L (fst (snd wm)), option_map kt (snd (snd wm))))) (st_insts st)).\n"
       "Definition fr (r : res state) := match r with Ok s => (0, Some (fs s), None) | Err e => (1, None, Some (fe e)) end.\n"
       "Definition wf2 (a b : state) := (wfb a, wfb b).\n"
       "Definition run_pair (a b : state) := let d := diff a b in (map fo d, fr (apply_ops d a), wf2 a b).\n"
       "Definition run_seq (canon : bool) (a : state) (ops : list op) :=\n"
       "  let r := apply_ops (if canon then patch_new ops else ops) a in\n"
       "  match r with Ok b => let d := diff a b in (fr r, Some (wf2 a b, map fo d, fr (apply_ops d a))) | Err _ => (fr r, None) end.\n")

BIG = (0xf0 << 248) | 0x11
BIG2 = (1 << 256) - 1
WARPS = [1, 4, BIG, 2]
NODES = [1, 2, 3, 5, BIG]
EDGES = [9, 10, 11, BIG2]
NTYPES = [6, 7]
ETYPES = [8, 12]
ATOMS = [("a", 5, (1, 2)), ("a", 5, ()), ("a", 6, (255,))]

# ----------------------------------------------------------------------------- state representation
# state = {w: inst}; inst = {"root": id, "parent": None|(kind,w,id,plane), "nodes": {id: ty},
#                            "edges": {id: (from,to,ty)}, "natt": {id: att}, "eatt": {id: att}}
# att = ("a", ty, bytes-tuple) | ("d", warp)

def hid(n):
    return format(n, "x")

def r_att(v):
    return f"a.{hid(v[1])}.{vf.hexb(list(v[2]))}" if v[0] == "a" else f"d.{hid(v[1])}"

def r_key(k):
    return f"{k[0]}.{hid(k[1])}.{hid(k[2])}.{k[3]}"

def r_state(st):
    parts = []
    for w in sorted(st):
        i = st[w]
        j = lambda xs: ",".join(xs) or "-"
        parts.append("~".join([
            hid(w), hid(i["root"]), r_key(i["parent"]) if i["parent"] else "-",
            j([f"{hid(n)}.{hid(t)}" for n, t in sorted(i["nodes"].items())]),
            j([f"{hid(e)}.{hid(r[0])}.{hid(r[1])}.{hid(r[2])}" for e, r in sorted(i["edges"].items())]),
            j([f"{hid(n)}.{r_att(v)}" for n, v in sorted(i["natt"].items())]),
            j([f"{hid(e)}.{r_att(v)}" for e, v in sorted(i["eatt"].items())])]))
    return "|".join(parts) or "-"

def p_att(f):
    if f[0] == "-":
        return None
    if f[0] == "a":
        return ("a", int(f[1], 16), tuple(bytes.fromhex(f[2])) if f[2] != "-" else ())
    return ("d", int(f[1], 16))

def p_key(f):
    return (f[0], int(f[1], 16), int(f[2], 16), f[3])

def p_state(s):
    st = {}
    if s in ("-", ""):
        return st
    for inst in s.split("|"):
        f = inst.split("~")
        lst = lambda x: [] if x == "-" else [it.split(".") for it in x.split(",")]
        st[int(f[0], 16)] = {
            "root": int(f[1], 16), "parent": None if f[2] == "-" else p_key(f[2].split(".")),
            "nodes": {int(a[0], 16): int(a[1], 16) for a in lst(f[3])},
            "edges": {int(a[0], 16): (int(a[1], 16), int(a[2], 16), int(a[3], 16)) for a in lst(f[4])},
            "natt": {int(a[0], 16): p_att(a[1:]) for a in lst(f[5])},
            "eatt": {int(a[0], 16): p_att(a[1:]) for a in lst(f[6])}}
    return st

# ops: ("P", key, cw, cr, ty|None) ("I", w, root, parent) ("X", w) ("N", w, n, ty) ("n", w, n)
#      ("E", w, e, from, to, ty) ("e", w, from, e) ("A", key, att|None)

def r_op(o):
    k = o[0]
    if k == "P":
        return f"P.{r_key(o[1])}.{hid(o[2])}.{hid(o[3])}.{hid(o[4]) if o[4] is not None else '-'}"
    if k == "I":
        return f"I.{hid(o[1])}.{hid(o[2])}.{r_key(o[3]) if o[3] else '-'}"
    if k == "A":
        return f"A.{r_key(o[1])}.{r_att(o[2]) if o[2] else '-'}"
    return k + "." + ".".join(hid(x) for x in o[1:])

def r_ops(ops):
    return ";".join(r_op(o) for o in ops) or "-"

def p_op(s):
    f = s.split(".")
    k = f[0]
    if k == "P":
        return ("P", p_key(f[1:5]), int(f[5], 16), int(f[6], 16), None if f[7] == "-" else int(f[7], 16))
    if k == "I":
        return ("I", int(f[1], 16), int(f[2], 16), None if f[3] == "-" else p_key(f[3:7]))
    if k == "A":
        return ("A", p_key(f[1:5]), p_att(f[5:]))
    return (k,) + tuple(int(x, 16) for x in f[1:])

def p_ops(s):
    return [] if s in ("-", "") else [p_op(x) for x in s.split(";")]

# ----------------------------------------------------------------------------- Coq terms

BIGIDS = set()

def cN(n):
    # a 64-digit hex literal costs ~20 ms to interpret in coqc: big ids are defined once per file
    if n < 1 << 30:
        return str(n)
    BIGIDS.add(n)
    return "b_%x" % n

def big_defs():
    return "".join("Definition b_%x : N := %s.\n" % (n, vf.coq_hexN("%x" % n)) for n in sorted(BIGIDS))

def c_att(v):
    return f"Atom {cN(v[1])} {vf.coq_bytes(list(v[2]))}" if v[0] == "a" else f"Descend {cN(v[1])}"

def c_key(k):
    return f"(mk_akey {'true' if k[0] == 'e' else 'false'} {'true' if k[3] == 'b' else 'false'} {cN(k[1])} {cN(k[2])})"

def c_optkey(k):
    return f"(Some {c_key(k)})" if k else "None"

def c_state(st):
    stores, insts = [], []
    for w in sorted(st):
        i = st[w]
        nodes = ";".join(f"({cN(n)},{cN(t)})" for n, t in sorted(i["nodes"].items()))
        edges = ";".join(f"({cN(e)},({cN(r[0])},{cN(r[1])},{cN(r[2])}))" for e, r in sorted(i["edges"].items()))
        natt = ";".join(f"({cN(n)},{c_att(v)})" for n, v in sorted(i["natt"].items()))
        eatt = ";".join(f"({cN(e)},{c_att(v)})" for e, v in sorted(i["eatt"].items()))
        stores.append(f"({cN(w)}, mk_store [{nodes}] [{edges}] [{natt}] [{eatt}])")
        insts.append(f"({cN(w)},({cN(i['root'])},{c_optkey(i['parent'])}))")
    return f"(mk_state [{';'.join(stores)}] [{';'.join(insts)}])"

def c_op(o):
    k = o[0]
    if k == "P":
        return f"OpenPortal {c_key(o[1])} {cN(o[2])} {cN(o[3])} {'(Some ' + cN(o[4]) + ')' if o[4] is not None else 'None'}"
    if k == "I":
        return f"UpsertWI {cN(o[1])} {cN(o[2])} {c_optkey(o[3])}"
    if k == "A":
        return f"SetAtt {c_key(o[1])} {'(Some (' + c_att(o[2]) + '))' if o[2] else 'None'}"
    name = {"X": "DeleteWI", "N": "UpsertNode", "n": "DeleteNode", "E": "UpsertEdge", "e": "DeleteEdge"}[k]
    return name + " " + " ".join(cN(x) for x in o[1:])

def c_ops(ops):
    return "[" + ";".join(c_op(o) for o in ops) + "]"

def to_term(line):
    m = dict(t.split("=", 1) for t in line.split())
    if m["k"] == "pair":
        return f"run_pair {c_state(p_state(m['a']))} {c_state(p_state(m['b']))}"
    return f"run_seq {'true' if m.get('canon') == '1' else 'false'} {c_state(p_state(m['a']))} {c_ops(p_ops(m['ops']))}"

# ----------------------------------------------------------------------------- model value -> canonical line

def v_opt(v):
    if v == "None":
        return None
    assert v[0] == "app" and v[1] == "Some", v
    return v[2][0]

def unL(l):
    return sum(x << (32 * i) for i, x in enumerate(l))

def v_key(t):
    return ("e" if t[0] == "true" else "n", unL(t[2]), unL(t[3]), "b" if t[1] == "true" else "a")

def v_att(v):
    tag, x, data = v
    return ("a", unL(x), tuple(data)) if tag == 0 else ("d", unL(x))

def v_op(v):
    name, a = v[1], v[2]
    if name == "FP":
        i = v_opt(a[3])
        return ("P", v_key(a[0]), unL(a[1]), unL(a[2]), unL(i) if i is not None else None)
    if name == "FI":
        p = v_opt(a[2])
        return ("I", unL(a[0]), unL(a[1]), v_key(p) if p else None)
    if name == "FA":
        x = v_opt(a[1])
        return ("A", v_key(a[0]), v_att(x) if x else None)
    return ({"FX": "X", "FN": "N", "Fn": "n", "FE": "E", "Fe": "e"}[name],) + tuple(unL(x) for x in a)

def v_state(v):
    stores, insts = v
    st = {}
    sd = {unL(w): s for w, s in stores}
    for w, (root, parent) in insts:
        w = unL(w)
        if w not in sd:
            continue
        nodes, edges, natt, eatt = sd[w]
        p = v_opt(parent)
        st[w] = {"root": unL(root), "parent": v_key(p) if p else None,
                 "nodes": {unL(n): unL(t) for n, t in nodes},
                 "edges": {unL(e): tuple(unL(x) for x in r) for e, r in edges},
                 "natt": {unL(n): v_att(a) for n, a in natt}, "eatt": {unL(e): v_att(a) for e, a in eatt}}
    return st

ERR = {1: "MissingWarp", 2: "MissingNode", 3: "MissingEdge", 4: "NodeNotIsolated", 5: "InvalidAttachmentKey",
       6: "PortalInitRequired", 7: "PortalInvariantViolation"}

def v_res(v):
    code, st, e = v
    if code == 0:
        return "ok", r_state(v_state(v_opt(st)))
    c, w, x, k = v_opt(e)
    w, x = unL(w), unL(x)
    if c == 1:
        return f"err:MissingWarp.{hid(w)}", "-"
    if c in (2, 3, 4):
        return f"err:{ERR[c]}.{hid(w)}.{hid(x)}", "-"
    if c == 5:
        return f"err:InvalidAttachmentKey.{r_key(v_key(k))}", "-"
    return f"err:{ERR[c]}", "-"

def render_model(line, v):
    m = dict(t.split("=", 1) for t in line.split())
    if m["k"] == "pair":
        d, r, (wa, wb) = v
        res, st = v_res(r)
        return f"diff={r_ops([v_op(o) for o in d])} res={res} st={st} wf={int(wa == 'true')}{int(wb == 'true')}"
    res, st = v_res(v[:3])
    rest = v_opt(v[3])
    if rest is None:
        return f"res={res} st={st} wf=- diff=- rres=- rst=-"
    wa, wb, d, rr = rest
    rres, rst = v_res(rr)
    return (f"res={res} st={st} wf={int(wa == 'true')}{int(wb == 'true')} diff={r_ops([v_op(o) for o in d])} "
            f"rres={rres} rst={rst}")

# ----------------------------------------------------------------------------- generators

def new_inst(root, parent=None):
    return {"root": root, "parent": parent, "nodes": {}, "edges": {}, "natt": {}, "eatt": {}}

def gen_store(rng, inst, big=False):
    nn = rng.randint(1, 5 if big else 4)
    for n in rng.sample(NODES, min(nn, len(NODES))):
        inst["nodes"][n] = rng.choice(NTYPES)
    inst["nodes"].setdefault(inst["root"], rng.choice(NTYPES))
    ns = sorted(inst["nodes"])
    for e in rng.sample(EDGES, rng.randint(0, len(EDGES))):
        inst["edges"][e] = (rng.choice(ns), rng.choice(ns), rng.choice(ETYPES))
    for n in ns:
        if rng.random() < 0.3:
            inst["natt"][n] = rng.choice(ATOMS)
    for e in inst["edges"]:
        if rng.random() < 0.45:
            inst["eatt"][e] = rng.choice(ATOMS)

def free_slots(st, w):
    i = st[w]
    return [("n", w, n, "a") for n in i["nodes"] if i["natt"].get(n, ("a",))[0] != "d"] + \
           [("e", w, e, "b") for e in i["edges"] if i["eatt"].get(e, ("a",))[0] != "d"]

def set_slot(st, key, v):
    m = st[key[1]]["natt" if key[0] == "n" else "eatt"]
    if v is None:
        m.pop(key[2], None)
    else:
        m[key[2]] = v

def add_child(rng, st, cw, owner_w=None):
    """new descended instance cw hanging off a free slot of an existing instance (keeps the portal invariants)"""
    ws = [w for w in st if free_slots(st, w)] if owner_w is None else [owner_w]
    if not ws:
        return False
    w = rng.choice(ws)
    slots = free_slots(st, w)
    if not slots:
        return False
    key = rng.choice(slots)
    root = rng.choice(NODES)
    st[cw] = new_inst(root, key)
    gen_store(rng, st[cw])
    set_slot(st, key, ("d", cw))
    return True

def gen_state(rng, big=False):
    st = {}
    rw = rng.choice(WARPS[:3])
    st[rw] = new_inst(rng.choice(NODES))
    gen_store(rng, st[rw], big)
    others = [w for w in WARPS if w != rw]
    rng.shuffle(others)
    for cw in others[:rng.choice([0, 0, 1, 1, 2])]:
        add_child(rng, st, cw)
    return st

def drop_instance(st, w):
    """delete instance w and everything hanging below it; clear the slot pointing at it"""
    todo = [w]
    while todo:
        x = todo.pop()
        if x not in st:
            continue
        p = st[x]["parent"]
        if p and p[1] in st:
            cur = st[p[1]]["natt" if p[0] == "n" else "eatt"].get(p[2])
            if cur == ("d", x):
                set_slot(st, p, None)
        for m in ("natt", "eatt"):
            for v in st[x][m].values():
                if v[0] == "d":
                    todo.append(v[1])
        del st[x]

def clear_slot_children(st, w, kind, ident):
    v = st[w]["natt" if kind == "n" else "eatt"].get(ident)
    if v and v[0] == "d":
        drop_instance(st, v[1])

MUTS = ["add_node", "retype_node", "del_node_cascade", "del_node_retarget", "add_edge", "del_edge", "retype_edge",
        "retarget_edge", "reparent_edge_keep", "reparent_edge_clear", "reparent_edge_change", "set_natt", "clear_natt",
        "set_eatt", "clear_eatt", "open_portal", "open_portal_new_owner", "del_instance", "new_root_instance",
        "change_meta", "swap_edge_ids"]

def mutate(rng, st, kind):
    """one semantic edit that keeps the state well formed; returns False when not applicable"""
    ws = sorted(st)
    if not ws:
        return False
    w = rng.choice(ws)
    i = st[w]
    ns, es = sorted(i["nodes"]), sorted(i["edges"])
    if not ns and kind in ("retype_node", "del_node_cascade", "del_node_retarget", "set_natt"):
        return False
    if kind == "add_node":
        free = [n for n in NODES if n not in i["nodes"]]
        if not free:
            return False
        i["nodes"][rng.choice(free)] = rng.choice(NTYPES)
    elif kind == "retype_node":
        n = rng.choice(ns)
        i["nodes"][n] = NTYPES[0] if i["nodes"][n] != NTYPES[0] else NTYPES[1]
    elif kind in ("del_node_cascade", "del_node_retarget"):
        cand = [n for n in ns if n != i["root"]] or ns
        n = rng.choice(cand)
        rest = [x for x in ns if x != n]
        for e in es:
            f, t, ty = i["edges"][e]
            if f == n or t == n:
                if kind == "del_node_retarget" and rest:
                    i["edges"][e] = (rng.choice(rest) if f == n else f, rng.choice(rest) if t == n else t, ty)
                else:
                    clear_slot_children(st, w, "e", e)
                    del i["edges"][e]
                    i["eatt"].pop(e, None)
        clear_slot_children(st, w, "n", n)
        del i["nodes"][n]
        i["natt"].pop(n, None)
    elif kind == "add_edge":
        free = [e for e in EDGES if e not in i["edges"]]
        if not free or not ns:
            return False
        e = rng.choice(free)
        i["edges"][e] = (rng.choice(ns), rng.choice(ns), rng.choice(ETYPES))
        if rng.random() < 0.5:
            i["eatt"][e] = rng.choice(ATOMS)
    elif kind == "del_edge":
        if not es:
            return False
        e = rng.choice(es)
        clear_slot_children(st, w, "e", e)
        del i["edges"][e]
        i["eatt"].pop(e, None)
    elif kind == "retype_edge":
        if not es:
            return False
        e = rng.choice(es)
        f, t, ty = i["edges"][e]
        i["edges"][e] = (f, t, ETYPES[0] if ty != ETYPES[0] else ETYPES[1])
    elif kind == "retarget_edge":
        if not es or len(ns) < 2:
            return False
        e = rng.choice(es)
        f, t, ty = i["edges"][e]
        i["edges"][e] = (f, rng.choice([x for x in ns if x != t]), ty)
    elif kind.startswith("reparent_edge"):
        if not es or len(ns) < 2:
            return False
        with_att = [e for e in es if e in i["eatt"]]
        e = rng.choice(with_att if (with_att and rng.random() < 0.8) else es)
        f, t, ty = i["edges"][e]
        i["edges"][e] = (rng.choice([x for x in ns if x != f]), t if rng.random() < 0.7 else rng.choice(ns), ty)
        if kind == "reparent_edge_clear":
            clear_slot_children(st, w, "e", e)
            i["eatt"].pop(e, None)
        elif kind == "reparent_edge_change" and i["eatt"].get(e, ("a",))[0] != "d":
            i["eatt"][e] = rng.choice([a for a in ATOMS if a != i["eatt"].get(e)])
    elif kind == "set_natt":
        n = rng.choice(ns)
        clear_slot_children(st, w, "n", n)
        if w in st:
            st[w]["natt"][n] = rng.choice([a for a in ATOMS if a != st[w]["natt"].get(n)])
    elif kind == "clear_natt":
        if not i["natt"]:
            return False
        n = rng.choice(sorted(i["natt"]))
        clear_slot_children(st, w, "n", n)
        if w in st:
            st[w]["natt"].pop(n, None)
    elif kind == "set_eatt":
        if not es:
            return False
        e = rng.choice(es)
        clear_slot_children(st, w, "e", e)
        if w in st:
            st[w]["eatt"][e] = rng.choice([a for a in ATOMS if a != st[w]["eatt"].get(e)])
    elif kind == "clear_eatt":
        if not i["eatt"]:
            return False
        e = rng.choice(sorted(i["eatt"]))
        clear_slot_children(st, w, "e", e)
        if w in st:
            st[w]["eatt"].pop(e, None)
    elif kind == "open_portal":
        free = [x for x in WARPS if x not in st]
        if not free:
            return False
        return add_child(rng, st, rng.choice(free))
    elif kind == "open_portal_new_owner":
        free = [x for x in WARPS if x not in st]
        freen = [n for n in NODES if n not in i["nodes"]]
        if not free or not freen:
            return False
        cw = rng.choice(free)
        if rng.random() < 0.6 or not ns:
            n = rng.choice(freen)
            i["nodes"][n] = rng.choice(NTYPES)
            key = ("n", w, n, "a")
        else:
            fe = [e for e in EDGES if e not in i["edges"]]
            if not fe:
                return False
            e = rng.choice(fe)
            i["edges"][e] = (rng.choice(ns), rng.choice(ns), rng.choice(ETYPES))
            key = ("e", w, e, "b")
        st[cw] = new_inst(rng.choice(NODES), key)
        gen_store(rng, st[cw])
        set_slot(st, key, ("d", cw))
    elif kind == "del_instance":
        cand = [x for x in ws if st[x]["parent"] is not None]
        if not cand:
            return False
        drop_instance(st, rng.choice(cand))
    elif kind == "new_root_instance":
        free = [x for x in WARPS if x not in st]
        if not free:
            return False
        cw = rng.choice(free)
        st[cw] = new_inst(rng.choice(NODES))
        gen_store(rng, st[cw])
    elif kind == "change_meta":
        i["root"] = rng.choice(NODES)
    elif kind == "swap_edge_ids":
        if len(es) < 2:
            return False
        e1, e2 = rng.sample(es, 2)
        i["edges"][e1], i["edges"][e2] = i["edges"][e2], i["edges"][e1]
    return True

def gen_pair(rng, stats):
    a = gen_state(rng, big=rng.random() < 0.2)
    r = rng.random()
    if r < 0.08:
        b = gen_state(rng)
        stats["independent"] = stats.get("independent", 0) + 1
    else:
        b = copy.deepcopy(a)
        for _ in range(rng.choice([1, 1, 2, 2, 3, 4, 6])):
            k = rng.choice(MUTS)
            if mutate(rng, b, k):
                stats[k] = stats.get(k, 0) + 1
    return a, b

def break_state(rng, st, stats):
    """malformed stream: one violation of well-formedness"""
    w = rng.choice(sorted(st))
    i = st[w]
    if not i["nodes"]:
        i["nodes"][rng.choice(NODES)] = rng.choice(NTYPES)
    k = rng.choice(["dangling_edge", "descend_nowhere", "orphan_instance", "bad_plane", "att_no_owner", "two_parents"])
    stats["malformed:" + k] = stats.get("malformed:" + k, 0) + 1
    if k == "dangling_edge":
        i["edges"][rng.choice(EDGES)] = (rng.choice(NODES), 0x77, 8)
    elif k == "descend_nowhere":
        i["natt"][rng.choice(sorted(i["nodes"]))] = ("d", 0x66)
    elif k == "orphan_instance":
        st[0x55] = new_inst(1, ("n", w, rng.choice(sorted(i["nodes"])), "a"))
        st[0x55]["nodes"][1] = 6
    elif k == "bad_plane":
        n = rng.choice(sorted(i["nodes"]))
        st[0x55] = new_inst(1, ("n", w, n, "b"))
        st[0x55]["nodes"][1] = 6
        i["natt"][n] = ("d", 0x55)
    elif k == "att_no_owner":
        i["eatt"][0x99] = rng.choice(ATOMS)
    elif k == "two_parents":
        n = rng.choice(sorted(i["nodes"]))
        for cw in (0x55, 0x56):
            st[cw] = new_inst(1, ("n", w, n, "a"))
            st[cw]["nodes"][1] = 6
        i["natt"][n] = ("d", 0x55)

def gen_ops(rng, a, stats):
    """a random 'program output': ops over the ids of `a` plus fresh ids, mostly plausible"""
    ops = []
    ws = sorted(a) or [1]
    n_ops = rng.choice([1, 2, 3, 4, 6, 8, 12, 20, 30])
    for _ in range(n_ops):
        w = rng.choice(ws) if rng.random() < 0.93 else rng.choice(WARPS)
        i = a.get(w, new_inst(1))
        ns = sorted(i["nodes"]) or NODES
        es = sorted(i["edges"]) or EDGES
        anyn = lambda: rng.choice(ns) if rng.random() < 0.8 else rng.choice(NODES)
        anye = lambda: rng.choice(es) if rng.random() < 0.8 else rng.choice(EDGES)
        k = rng.choice(["N", "N", "n", "n", "E", "E", "E", "e", "e", "A", "A", "A", "P", "I", "X"])
        if k == "N":
            ops.append(("N", w, rng.choice(NODES), rng.choice(NTYPES)))
        elif k == "n":
            ops.append(("n", w, anyn()))
        elif k == "E":
            ops.append(("E", w, anye(), anyn(), anyn(), rng.choice(ETYPES)))
        elif k == "e":
            e = anye()
            f = i["edges"][e][0] if (e in i["edges"] and rng.random() < 0.85) else anyn()
            ops.append(("e", w, f, e))
        elif k == "A":
            if rng.random() < 0.5:
                key = ("n", w, anyn(), "a" if rng.random() < 0.95 else "b")
            else:
                key = ("e", w, anye(), "b" if rng.random() < 0.95 else "a")
            r = rng.random()
            v = None if r < 0.25 else (("d", rng.choice(WARPS)) if r < 0.35 else rng.choice(ATOMS))
            ops.append(("A", key, v))
        elif k == "P":
            key = ("n", w, anyn(), "a") if rng.random() < 0.6 else ("e", w, anye(), "b")
            cw = rng.choice(WARPS)
            ops.append(("P", key, cw, rng.choice(NODES), rng.choice(NTYPES) if rng.random() < 0.85 else None))
        elif k == "I":
            cw = rng.choice(WARPS)
            p = None if rng.random() < 0.4 else (("n", w, anyn(), "a") if rng.random() < 0.6 else ("e", w, anye(), "b"))
            ops.append(("I", cw, rng.choice(NODES), p))
            if p and rng.random() < 0.8:
                ops.append(("A", p, ("d", cw)))
                ops.append(("N", cw, rng.choice(NODES), rng.choice(NTYPES)))
        elif k == "X":
            ops.append(("X", rng.choice(WARPS)))
    return ops

def good_ops(a, b):
    """a correct program for a -> b in canonical phase order (what a rule could emit): unlike the code's
    diff it deletes re-targeted edges of deleted nodes first, re-sets attachments of re-parented edges and
    opens portals without OpenPortal when the owner is new."""
    ops = []
    for w in a:
        if w not in b:
            ops.append(("X", w))
    for w in b:
        if w not in a or (a[w]["root"], a[w]["parent"]) != (b[w]["root"], b[w]["parent"]):
            ops.append(("I", w, b[w]["root"], b[w]["parent"]))
    for w in b:
        ia = a.get(w, new_inst(0))
        ib = b[w]
        for e, r in ia["edges"].items():
            rb = ib["edges"].get(e)
            if rb is None or rb[0] != r[0] or (rb[1] != r[1] and r[1] not in ib["nodes"]):
                ops.append(("e", w, r[0], e))
        for n in ia["nodes"]:
            if n not in ib["nodes"]:
                ops.append(("n", w, n))
        for n, t in ib["nodes"].items():
            if ia["nodes"].get(n) != t:
                ops.append(("N", w, n, t))
        for e, r in ib["edges"].items():
            if ia["edges"].get(e) != r:
                ops.append(("E", w, e) + r)
        for n in ib["nodes"]:
            if ia["natt"].get(n) != ib["natt"].get(n):
                ops.append(("A", ("n", w, n, "a"), ib["natt"].get(n)))
        for e, r in ib["edges"].items():
            ra = ia["edges"].get(e)
            deleted = ra is not None and (ra[0] != r[0] or (ra[1] != r[1] and ra[1] not in ib["nodes"]))
            before = None if deleted else ia["eatt"].get(e)
            if before != ib["eatt"].get(e):
                ops.append(("A", ("e", w, e, "b"), ib["eatt"].get(e)))
    return ops

def mk_pair(a, b, seed):
    return f"k=pair a={r_state(a)} b={r_state(b)} seed={seed}"

def mk_seq(a, ops, canon, seed):
    return f"k=seq a={r_state(a)} ops={r_ops(ops)} canon={canon} seed={seed}"

LOCAL_MUTS = ["add_node", "retype_node", "del_node_cascade", "del_node_retarget", "add_edge", "del_edge", "retype_edge",
              "retarget_edge", "reparent_edge_keep", "reparent_edge_clear", "reparent_edge_change", "set_natt",
              "clear_natt", "set_eatt", "clear_eatt", "swap_edge_ids"]

def mutate_in(rng, st, w, kind):
    """like mutate, but inside instance w only (what a user rule may do in a real engine tick)"""
    class OneWarp:
        def __init__(s, r): s.r = r
        def choice(s, xs):
            xs = list(xs)
            return w if (xs and all(x in st for x in xs) and w in xs and len(xs) == len(st)) else s.r.choice(xs)
        def __getattr__(s, n): return getattr(s.r, n)
    return mutate(OneWarp(rng), st, kind)

def gen_tick(rng, stats):
    """one or two real engine ticks: the scripted rule emits a correct program for a semantic edit inside one instance"""
    a = gen_state(rng)
    w = rng.choice(sorted(a))
    ticks, cur = [], a
    for _ in range(rng.choice([1, 1, 2])):
        nxt = copy.deepcopy(cur)
        for _ in range(rng.choice([1, 2, 3])):
            k = rng.choice(LOCAL_MUTS)
            if mutate_in(rng, nxt, w, k):
                stats["tick:" + k] = stats.get("tick:" + k, 0) + 1
        if set(nxt) != set(cur):
            return None
        ops = good_ops(cur, nxt)
        if any(o[0] in "IXP" for o in ops) or any((o[1] if o[0] != "A" else o[1][1]) != w for o in ops) or not ops:
            return None
        ticks.append(ops)
        cur = nxt
    return f"k=tick a={r_state(a)} w={hid(w)} ops={'/'.join(r_ops(t) for t in ticks)} seed={rng.getrandbits(32)}"

def enum_universe():
    """the harness' exhaustive universe (enum_states in c04.rs), rebuilt here so that a sample of its pairs also
    goes through the model"""
    atts = [None, ("a", 5, (1,)), ("a", 5, (2,)), ("d", 4)]
    out = []
    nopts = [None, 0, 1, 2, 3]
    for n1 in nopts:
        for n2 in nopts:
            present = [n for n, o in ((1, n1), (2, n2)) if o is not None]
            eopts = [None] + [(f, t, 8, at) for f in present for t in present for at in range(4)]
            for e1 in eopts:
                for e2 in eopts:
                    desc = []
                    if n1 == 3: desc.append(("n", 1, 1, "a"))
                    if n2 == 3: desc.append(("n", 1, 2, "a"))
                    if e1 and e1[3] == 3: desc.append(("e", 1, 9, "b"))
                    if e2 and e2[3] == 3: desc.append(("e", 1, 10, "b"))
                    if len(desc) > 1:
                        continue
                    i = new_inst(1)
                    for n, o in ((1, n1), (2, n2)):
                        if o is not None:
                            i["nodes"][n] = 7
                            if atts[o]:
                                i["natt"][n] = atts[o]
                    for e, o in ((9, e1), (10, e2)):
                        if o:
                            i["edges"][e] = (o[0], o[1], o[2])
                            if atts[o[3]]:
                                i["eatt"][e] = atts[o[3]]
                    st = {1: i}
                    if desc:
                        st[4] = new_inst(5, desc[0])
                        st[4]["nodes"][5] = 6
                    out.append(st)
    return out

def gen_cases(rng, tier, stats):
    n = 600 if tier == "quick" else 4000
    cases = []
    for i in range(n):
        a, b = gen_pair(rng, stats)
        if i % 9 == 4:
            break_state(rng, rng.choice([a, b]), stats)
        cases.append(mk_pair(a, b, rng.getrandbits(32)))
    for i in range(n):
        if i % 3 == 0:
            # a correct program for a semantic edit: the tick commits, the emitted patch must replay
            a, b = gen_pair(rng, stats)
            ops = good_ops(a, b)
            if i % 6 == 0:
                rng.shuffle(ops)
            cases.append(mk_seq(a, ops, 1, rng.getrandbits(32)))
            stats["seq:program"] = stats.get("seq:program", 0) + 1
        else:
            a = gen_state(rng)
            if i % 11 == 5:
                break_state(rng, a, stats)
            ops = gen_ops(rng, a, stats)
            cases.append(mk_seq(a, ops, 1 if i % 2 else 0, rng.getrandbits(32)))
            stats["seq:random"] = stats.get("seq:random", 0) + 1
    nt = 0
    for i in range(n * 2):
        if nt >= (250 if tier == "quick" else 1500):
            break
        c = gen_tick(rng, stats)
        if c:
            cases.append(c)
            nt += 1
    uni = enum_universe()
    stats["universe_states"] = len(uni)
    for _ in range(150 if tier == "quick" else 1500):
        cases.append(mk_pair(rng.choice(uni), rng.choice(uni), rng.getrandbits(32)))
    cases.append(f"k=enum sample={'200000' if tier == 'quick' else 'all'} seed={rng.getrandbits(32)} ety=8")
    return cases

# ----------------------------------------------------------------------------- run

def split_impl(l):
    body, _, orc = l.rpartition(" oracle=")
    return body, orc

def has_model(c):
    return c.startswith(("k=pair", "k=seq"))

def both(tag, cases, bins, model=True, timeout=2400):
    path = vf.write_cases(tag, cases)
    rc, out = vf.run_bin(bins["c04"], path, timeout=timeout)
    lines = [l for l in out.splitlines() if l.startswith(("diff=", "res=", "tick ", "enum "))]
    if rc or len(lines) != len(cases):
        raise vf.Broken(f"harness c04 exited {rc} with {len(lines)} lines for {len(cases)} cases: {out[-1200:]}")
    impl, oracle = zip(*[split_impl(l) for l in lines]) if lines else ((), ())
    mod = list(impl)
    if model:
        idx = [i for i, c in enumerate(cases) if has_model(c)]
        terms = [to_term(cases[i]) for i in idx]
        vals = vf.coq_eval(tag, PRE + big_defs(), terms)
        for i, v in zip(idx, vals):
            mod[i] = render_model(cases[i], v)
    return list(impl), mod, list(oracle)

def sig_of(orc):
    return orc.split(":", 1)[1].split(",")[0] if ":" in orc else orc

def shrink_case(case, sig, bins):
    """greedy shrink of a failing case (implementation oracle only): drop ops / nodes / edges / attachments"""
    m = dict(t.split("=", 1) for t in case.split())
    def fails(c):
        try:
            _, _, o = both("c04shrink", [c], bins, model=False)
            return sig in o[0]
        except Exception:
            return False
    if m["k"] == "tick":
        ticks = [p_ops(t) for t in m["ops"].split("/")]
        mk = lambda ts: f"k=tick a={m['a']} w={m['w']} ops={'/'.join(r_ops(t) for t in ts)} seed={m['seed']}"
        for i in range(len(ticks)):
            ticks[i] = vf.shrink_list(ticks[i], lambda cand: bool(cand) and fails(mk(ticks[:i] + [cand] + ticks[i + 1:])),
                                      max_rounds=30)
        return mk(ticks)
    if m["k"] not in ("seq", "pair"):
        return case
    if m["k"] == "seq":
        a, ops = p_state(m["a"]), p_ops(m["ops"])
        ops = vf.shrink_list(ops, lambda cand: fails(mk_seq(a, cand, m["canon"], m["seed"])), max_rounds=60)
        return mk_seq(a, ops, m["canon"], m["seed"])
    a, b = p_state(m["a"]), p_state(m["b"])
    changed, rounds = True, 0
    while changed and rounds < 60:
        changed = False
        for w in sorted(set(a) | set(b)):
            for field in ("eatt", "natt", "edges", "nodes"):
                ids = sorted(set(a.get(w, {}).get(field, {})) | set(b.get(w, {}).get(field, {})))
                for x in ids:
                    a2, b2 = copy.deepcopy(a), copy.deepcopy(b)
                    for s in (a2, b2):
                        if w in s:
                            s[w][field].pop(x, None)
                    rounds += 1
                    if fails(mk_pair(a2, b2, m["seed"])):
                        a, b, changed = a2, b2, True
    return mk_pair(a, b, m["seed"])

def run(tier, seed, replay=None):
    r = vf.Run(PROP, tier, seed, "proof")
    r.assumptions = [
        "Coq 8.16.1 kernel (coqc; vm_compute for the refutation witnesses and Examples); no axioms",
        "model = coq/Model/Patch.v: GraphStore abstracted to four sorted maps (nodes, edges by id, node/edge attachments); "
        "the store's redundant indexes are checked for coherence by the harness after every operation",
        "tie = python generator + harness/src/bin/c04.rs (public API + echo_verif hooks diff_state/apply_ops_to_state) + "
        "vm_compute evaluation of the model on the same cases",
    ]
    r.cov["trusted_base"] = ["coqc 8.16.1 kernel + vm_compute", "python generator/renderer props/c04.py",
                             "harness c04.rs (abstraction WarpState -> canonical dump through public accessors)"]
    r.proof_phase(THEOREMS)
    if tier == "thorough" and not replay:
        rc, out = vf.sh(["coqchk", "-silent", "-o", "-Q", vf.COQ, "Echo", "Echo.Props.C04"], timeout=1500)
        ok_chk = rc == 0 and "Axioms: <none>" in out
        r.phase("coqchk", ok=ok_chk, tail=out[-300:])
        if not ok_chk:
            r.is_broken("coqchk", out[-1500:])
    stats = {}
    if replay:
        d = json.load(open(replay))
        cases = [d["replay"]["case"]] if "case" in d.get("replay", {}) else []
    else:
        cases = vf.load_corpus(PROP) + gen_cases(r.rng, tier, stats)
    try:
        bins = vf.cargo_build(["c04"])
        r.phase("P3_build", ok=True)
    except vf.Broken as e:
        r.is_broken("harness-build", e)
        return r.finish()
    import time
    t_run = time.time()
    try:
        impl, model, oracle = both("c04", cases, bins)
    except vf.Broken as e:
        r.is_broken("correspondence-run", e)
        return r.finish()
    bad = vf.diff_lines(r, cases, impl, model)
    seen = set()
    enum_info = {}
    for i, c in enumerate(cases):
        if c.startswith("k=enum"):
            m = dict(t.split("=", 1) for t in impl[i].split()[1:])
            enum_info = {k: m[k] for k in ("states", "wf", "pairs", "ok", "err", "buildbad", "fails")}
            if m.get("ex", "-") != "-":
                for ex in m["ex"].split(";"):
                    sig, ab = ex.split("|", 1)
                    a_, b_ = ab.split("#")
                    pc = f"k=pair a={a_} b={b_} seed=1"
                    if sig not in seen:
                        seen.add(sig)
                        r.violation(sig, f"exhaustive universe: oracle {sig} fails on {pc}", {"case": pc, "oracle": sig})
            if m.get("buildbad", "0") != "0":
                r.is_broken("enum-build", "harness could not build some enumerated states faithfully")
            oracle[i] = "ok"
    for i, o in enumerate(oracle):
        if o != "ok":
            sig = sig_of(o)
            if sig in seen:
                continue
            seen.add(sig)
            small = shrink_case(cases[i], sig, bins) if not replay else cases[i]
            _, _, o2 = both("c04shrunk", [small], bins, model=False)
            r.violation(sig, f"implementation oracle failed: {o2[0]} on {small}", {"case": small, "oracle": o2[0]})
    for i in bad[:3]:
        r.is_broken("correspondence", f"model and implementation differ on: {cases[i]}\n impl : {impl[i]}\n model: {model[i]}")
    if r.broken and not r.violations and not replay:
        # P6: something no longer checks and no case failed the oracle: search with a larger budget, oracle only
        extra, st2 = [], {}
        for i in range(3000):
            a, b = gen_pair(r.rng, st2)
            extra.append(mk_pair(a, b, r.rng.getrandbits(32)))
            extra.append(mk_seq(a, good_ops(a, b), 1, r.rng.getrandbits(32)))
            t = gen_tick(r.rng, st2)
            if t:
                extra.append(t)
        extra.append(f"k=enum sample=2000000 seed={r.rng.getrandbits(32)} ety=8")
        try:
            _, _, o2 = both("c04search", extra, bins, model=False)
            for c, o in zip(extra, o2):
                if o != "ok" and not c.startswith("k=enum") and sig_of(o) not in seen:
                    seen.add(sig_of(o))
                    r.violation(sig_of(o), f"search: implementation oracle failed: {o} on {c}", {"case": c, "oracle": o})
            r.phase("P6_search", cases=len(extra), found=len(r.violations))
        except vf.Broken as e:
            r.is_broken("search-run", e)
    kinds = {}
    for l in impl:
        res = [t for t in l.split() if t.startswith(("res=", "rres="))]
        for t in res:
            k = t.split("=", 1)[1].split(".")[0]
            kinds[t.split("=")[0] + ":" + k] = kinds.get(t.split("=")[0] + ":" + k, 0) + 1
    opk = {}
    for l in impl:
        for t in l.split():
            if t.startswith("diff=") and t != "diff=-":
                for o in t[5:].split(";"):
                    opk[o[0]] = opk.get(o[0], 0) + 1
    r.cov["evaluations"] = len(cases)
    r.cov["distinct_nontrivial"] = len({c for c, l in zip(cases, impl) if "diff=-" not in l})
    r.cov["rule"] = ("state pairs (semantic edits of generated multi-instance states + a malformed stream) and op sequences "
                     "(correct programs for semantic edits + random plausible/invalid ops, raw and through the patch constructor) "
                     "run through the real warp-core and the Coq model; non-trivial = the diff is non-empty")
    r.cov["result_kinds"] = dict(sorted(kinds.items()))
    r.cov["diff_op_kinds"] = dict(sorted(opk.items()))
    r.cov["generator_edits"] = dict(sorted(stats.items()))
    r.cov["traces_validated_against_impl"] = len(cases) - len(bad)
    r.cov["oracle_failures_by_signature"] = {s: sum(1 for o in oracle if o != "ok" and sig_of(o) == s) for s in seen}
    r.cov["exhaustive_universe"] = enum_info
    tk = {}
    for c, l in zip(cases, impl):
        if c.startswith("k=tick"):
            for t in l.split()[1].split("=", 1)[1].split(","):
                tk[t.split(":")[0]] = tk.get(t.split(":")[0], 0) + 1
    r.cov["engine_ticks"] = tk
    r.cov["samples"] = cases[:2] + [c for c in cases if c.startswith("k=tick")][:1] + cases[-2:-1]
    r.phase("P4_correspondence", cases=len(cases), differing=len(bad), seconds=round(time.time() - t_run, 1))
    r.phase("P5_oracle", failing=sum(1 for o in oracle if o != "ok"))
    return r.finish()

MANIFEST = {
    "category": "proof",
    "text": ("Coq theorems (no axioms) over an executable model of tick_patch.rs (WarpOp sort keys, patch constructor dedupe, "
             "apply_ops_to_state with every TickPatchError and the portal-invariant validation, diff_state with portal "
             "canonicalisation, skip sets and edge re-creation) and of the GraphStore/WarpState operations it drives: the delta between "
             "two structurally well-formed states never yields a third state (diff_apply_exact), every transition into a well-formed "
             "state replays to exactly that state (diff_apply_complete / diff_apply_tick; the well-formedness of the post-state cannot "
             "be dropped: diff_apply_tick_dangling_refuted), the diff is strictly sorted so the patch constructor is the identity on it, "
             "op application preserves structural well-formedness (and provably not referential integrity), a failing op is never "
             "swallowed. Tied to /repo by running model (vm_compute) and the real warp-core on the same generated state pairs and op "
             "sequences (diff op lists, result kind with error payload, canonical state dumps, well-formedness flags) and by an oracle on "
             "the implementation alone: apply(diff(a,b), a) equals b by dump and by the implementation's own store hashes / state root, or "
             "is a typed error only when no committed tick a->b exists; real Engine ticks through a scripted rule "
             "(patch.apply_to_state(pre) vs Engine::state(), snapshot state root, jump_to_tick); all ordered pairs of a 3648-state "
             "universe in the thorough tier."),
    "note": ("Trusted: Coq kernel + vm_compute; python generator/renderer props/c04.py; harness c04.rs (abstraction WarpState -> "
             "canonical dump through public accessors over the ids of the case). Modelled rather than verified: tick_patch.rs diff/apply, "
             "graph.rs insert_node/upsert_edge_record/delete_node_isolated/delete_edge_exact/set_*_attachment, warp_state.rs as Gallina "
             "functions over four sorted maps per store; the store's redundant indexes (edges_from bucket order, edges_to, edge_index, "
             "edge_to_index) are dropped by the abstraction and instead probed for coherence after every operation "
             "(signature index-incoherent flags). Patch digest bytes, slots, slicing and the engine's rule execution are outside the model "
             "(engine ticks are exercised, user rules cannot emit instance/portal ops in debug builds so portal ticks are covered at the "
             "tick_patch layer only). The check found and the maintainers fixed three replay defects (c24eacb, fd806f7, 8f26be3); their "
             "oracle signatures reparent-edge-keeps-attachment, retarget-edge-off-deleted-node, portal-owner-created-in-same-tick stay armed."),
}
