"""C01 — a tick's outcome depends on the candidate set, never on arrival order."""
import json
import vf, tickgen

PROP = "C01"
THEOREMS = ["drain_is_canonical_map", "tick_depends_on_set_only", "tick_considers_in_canonical_order",
            "tick_effects", "rejected_invisible", "merge_order_free"]


def run_impl(bins, tag, cases, timeout=1500):
    path = vf.write_cases(tag, cases)
    rc, out = vf.run_bin(bins["c01"], path, timeout=timeout)
    lines = [l for l in out.splitlines() if l.startswith("tbl=")]
    if rc or len(lines) != len(cases):
        raise vf.Broken(f"harness c01 exited {rc} with {len(lines)}/{len(cases)} lines: {out[-800:]}")
    return lines


def compare(r, cases, impl):
    """model vs implementation on (order, decisions, blockers, merged effects)"""
    terms = [tickgen.to_term(tickgen.fields(l)["tbl"], tickgen.fields(l)["enq"]) for l in impl]
    vals = vf.coq_eval("c01", tickgen.PRE, terms, timeout=1500)
    bad = []
    for i, (l, v) in enumerate(zip(impl, vals)):
        f = tickgen.fields(l)
        m, _units = tickgen.render_model(v)
        if f["res"].startswith("Err:"):
            # a failed commit exposes no receipt; the model must not claim a conflict-free merge unless the
            # failure comes from op application (not modelled here, see C04)
            mk = m.split("merged=")[1]
            if mk.startswith("Merge") and "EngineError" not in f["res"]:
                bad.append((i, l, m))
            continue
        a = f"order={f['order']} dec={f['dec']} blk={f['blk']} merged={f['merged']}"
        if a != m:
            bad.append((i, a, m))
    return bad


PRE_POST = """From Coq Require Import List NArith Bool.
From Echo Require Import Base.FinMap Model.Patch.
Import ListNotations.
Open Scope N_scope.
Definition fatt (a : att) := match a with Atom t d => (0, t, d) | Descend w => (1, w, []) end.
Definition fkey (k : akey) := ((if ak_edge k then 1 else 0), (if ak_beta k then 1 else 0), ak_warp k, ak_id k).
Definition fstore (kv : N * store) :=
  (fst kv, s_nodes (snd kv), map (fun x : N * erec => (fst x, e_from (snd x), e_to (snd x), e_ty (snd x))) (s_edges (snd kv)),
   map (fun x : N * att => (fst x, fatt (snd x))) (s_natt (snd kv)), map (fun x : N * att => (fst x, fatt (snd x))) (s_eatt (snd kv))).
Definition finst (kv : N * imeta) := (fst kv, fst (snd kv), match snd (snd kv) with None => [] | Some k => [fkey k] end).
Definition flat (s : state) := (map fstore (st_stores s), map finst (st_insts s)).
Definition post (ops : list op) (st : state) := match apply_ops ops st with Ok s => (0, [flat s]) | Err _ => (1, []) end.
"""


def _akey(s):
    """'na1.7' / 'eb1_7' -> (edge, beta, warp, id)"""
    s = s.replace("_", ".")
    w, i = s[2:].split(".")
    return (1 if s[0] == "e" else 0, 1 if s[1] == "b" else 0, int(w), int(i))


def _akey_t(k):
    return f"(mk_akey {'true' if k[0] else 'false'} {'true' if k[1] else 'false'} {k[2]} {k[3]})"


def _bytes(hx):
    return [int(hx[i:i + 2], 16) for i in range(0, len(hx), 2)]


def _att_t(a):
    if a[0] == 0:
        return f"(Atom {a[1]} [{'; '.join(map(str, a[2]))}])"
    return f"(Descend {a[1]})"


def parse_dump(d):
    """dump_state text -> (stores, insts) in the shape of the model's `flat`"""
    stores, insts = [], []
    parts = d.split("|")
    for hd, body in zip(parts[0::2], parts[1::2]):
        h = hd.split(":")
        w = int(h[0][1:])
        root = int(h[1].split("=")[1], 16)
        par = h[2].split("=")[1]
        insts.append((w, root, [] if par == "-" else [_akey(par)]))
        nodes, edges, natt, eatt = [], [], [], []
        for it in [x for x in body.split(",") if x]:
            if it[0] == "n":
                a, b = it[1:].split(":")
                nodes.append((int(a, 16), int(b, 16)))
            elif it[0] == "e":
                a, rest = it[1:].split(":", 1)
                ft, ty = rest.rsplit(":", 1)
                f, t = ft.split(">")
                edges.append((int(a, 16), int(f, 16), int(t, 16), int(ty, 16)))
            else:
                a, v = it[1:].split("=")
                v = v.split(":")
                val = (0, int(v[1], 16), _bytes(v[2])) if v[0] == "atom" else (1, int(v[1], 16), [])
                (natt if it[0] == "a" else eatt).append((int(a, 16), val))
        stores.append((w, sorted(nodes), sorted(edges), sorted(natt), sorted(eatt)))
    return (sorted(stores), sorted(insts))


def state_term(st):
    stores, insts = st
    def m(l, f):
        return "[" + "; ".join(f(x) for x in l) + "]"
    ss = m(stores, lambda s: f"({s[0]}, mk_store {m(s[1], lambda n: f'({n[0]}, {n[1]})')} "
           f"{m(s[2], lambda e: f'({e[0]}, ({e[1]}, {e[2]}, {e[3]}))')} {m(s[3], lambda a: f'({a[0]}, {_att_t(a[1])})')} "
           f"{m(s[4], lambda a: f'({a[0]}, {_att_t(a[1])})')})")
    ii = m(insts, lambda i: f"({i[0]}, ({i[1]}, {'None' if not i[2] else 'Some ' + _akey_t(i[2][0])}))")
    return f"(mk_state {ss} {ii})"


def op_term(o):
    f = o.split(".")
    k = f[0]
    if k == "UN": return f"UpsertNode {f[1]} {f[2]} {f[3]}"
    if k == "DN": return f"DeleteNode {f[1]} {f[2]}"
    if k == "UE": return f"UpsertEdge {f[1]} {f[2]} {f[3]} {f[4]} {f[5]}"
    if k == "DE": return f"DeleteEdge {f[1]} {f[2]} {f[3]}"
    if k == "SA":
        v = f[2]
        if v == "-": vt = "None"
        elif v.startswith("atom_"):
            _, ty, hx = v.split("_")
            vt = "(Some " + _att_t((0, int(ty), _bytes(hx))) + ")"
        else:
            vt = f"(Some (Descend {v.split('_')[1]}))"
        return f"SetAtt {_akey_t(_akey(f[1]))} {vt}"
    raise vf.Broken("op not expected in a merged tick delta: " + o)


def _norm(v):
    """parsed Coq value -> nested tuples/lists of ints comparable with parse_dump"""
    if isinstance(v, (list, tuple)):
        t = [_norm(x) for x in v]
        return tuple(t) if isinstance(v, tuple) else t
    return v


def _tup(v):
    if isinstance(v, list): return [_tup(x) for x in v]
    if isinstance(v, tuple): return tuple(_tup(x) for x in v)
    return v


def compare_post(impl):
    """post-state of a committed tick = verified Patch.apply_ops (C04's model) of the merged ops on the pre-state"""
    idx, terms = [], []
    for i, l in enumerate(impl):
        f = tickgen.fields(l)
        if f["res"].startswith("Err:") or f.get("mops", "-") == "-":
            continue
        ops = "[" + "; ".join(op_term(o) for o in f["mops"].split("+")) + "]"
        terms.append(f"post {ops} {state_term(parse_dump(f['pre']))}")
        idx.append(i)
    vals = vf.coq_eval("c01post", PRE_POST, terms, timeout=1500)
    bad = []
    for i, v in zip(idx, vals):
        f = tickgen.fields(impl[i])
        want = parse_dump(f["post"])
        got = None
        if v[0] == 0:
            got = _tup(v[1][0])
            got = (sorted(got[0]), sorted(got[1]))
        if got != _tup(want):
            bad.append((i, f"post={want}", f"post={got}"))
    return bad, len(idx)


def run(tier, seed, replay=None):
    r = vf.Run(PROP, tier, seed, "proof")
    r.assumptions = [
        "Coq 8.16.1 kernel; no axioms (Print Assumptions: closed under the global context)",
        "model = coq/Model/Tick.v + Sched.v: enqueue (last wins, refreshed nonce) -> drain (comparison sort / radix) -> reserve (greedy) -> "
        "merge of the ops of accepted candidates (sort by key, reject divergent, dedupe, write-to-new-warp check); executors are DATA "
        "(the op list each candidate's executor emits against the pre-tick state is obtained by running the real executor); op application, "
        "state diff, patch digest, state root and commit hash are not in this model (C04/C06/C05) and are covered here by the implementation-side oracle",
        "tie: real Engine ticks (EngineBuilder::from_state, register_rule, apply_in_warp, commit_with_receipt) over generated multi-instance graphs and "
        "data-driven rewrite programs with honest footprints interpreted by 8 registered rules",
    ]
    r.cov["trusted_base"] = ["coqc 8.16.1 kernel + vm_compute", "props/c01.py + props/tickgen.py (generator, table -> Gallina term)",
                             "harness tick.rs/c01.rs (program interpreter, honest footprints, candidate table, reference merge, state dump)"]
    r.proof_phase(THEOREMS)
    r.tables_phase("Sched")
    if replay:
        d = json.load(open(replay))
        cases = [d["replay"]["case"]] if "case" in d.get("replay", {}) else []
    else:
        cases = vf.load_corpus(PROP)
        n = 150 if tier == "quick" else 4000
        for i in range(n):
            # a third of the ticks pass the descent chain to apply_in_warp (Stage B1): candidates matched inside a descended
            # instance then read the portal slots of their ancestors, so conflicts and witnesses cross instances
            cases.append(tickgen.gen_case(r.rng, perms=(5 if tier == "quick" else 12), extra=("descent=1" if i % 3 == 2 else "")))
        for _ in range(1 if tier == "quick" else 4):
            cases.append(tickgen.gen_case(r.rng, big=True, perms=1))
    try:
        bins = vf.cargo_build(["c01"])
        impl = run_impl(bins, "c01", cases)
    except vf.Broken as e:
        r.is_broken("harness", e)
        return r.finish()
    oracles = [tickgen.fields(l)["oracle"] for l in impl]
    for c, o in zip(cases, oracles):
        if o != "ok":
            r.violation("oracle:" + o.split(":", 1)[1].split(",")[0], f"implementation-side oracle failed: {o}", {"case": c, "oracle": o})
    try:
        bad = compare(r, cases, impl)
    except vf.Broken as e:
        r.is_broken("model-eval", e)
        bad = []
    try:
        badp, npost = compare_post(impl)
    except vf.Broken as e:
        r.is_broken("model-eval-post", e)
        badp, npost = [], 0
    r.cov["post_states_validated_against_patch_model"] = npost - len(badp)
    for i, a, m in badp[:3]:
        r.is_broken("correspondence:post-state", f"post-state differs from Patch.apply_ops(merged ops, pre-state) on: {cases[i][:1200]}\n impl : {a[:700]}\n model: {m[:700]}")
    for i, a, m in bad[:3]:
        r.is_broken("correspondence", f"model and implementation differ on: {cases[i][:1200]}\n impl : {a[:500]}\n model: {m[:500]}")
    if r.broken and not r.violations and not replay:
        extra = [tickgen.gen_case(r.rng, perms=10) for _ in range(1500)]
        for c, l in zip(extra, run_impl(bins, "c01search", extra)):
            o = tickgen.fields(l)["oracle"]
            if o != "ok":
                r.violation("oracle:" + o.split(":", 1)[1].split(",")[0], "oracle failed during search", {"case": c, "oracle": o})
                break
        r.phase("P6_search", cases=len(extra))
    f = [tickgen.fields(l) for l in impl]
    r.cov["evaluations"] = len(cases)
    r.cov["engine_ticks_run"] = sum(int(x["runs"]) for x in f)
    r.cov["distinct_nontrivial"] = len({c for c, x in zip(cases, f) if x["dec"].count("1") + x["dec"].count("0") >= 2})
    r.cov["rule"] = ("generated graphs (1-2 instances, portals, nodes, edges, node/edge atoms) x 4 data-driven programs (guards on attachment bytes, "
                     "set/clear attachments, upsert/delete nodes and edges, adjacency counts) x enqueue sequences of 0-12 requests with repeats, "
                     "plus >1024-candidate batches; every case is re-run by the harness under shuffled/duplicated enqueue orders, the legacy "
                     "scheduler and 2/5 workers; non-trivial = at least two candidates in the receipt")
    r.cov["traces_validated_against_impl"] = len(cases) - len(bad)
    r.cov["ticks_with_rejections"] = sum(1 for x in f if "0" in x["dec"])
    r.cov["failed_commits"] = sum(1 for x in f if x["res"].startswith("Err:"))
    r.cov["max_candidates"] = max((len(x["dec"]) for x in f), default=0)
    r.cov["samples"] = [c[:600] for c in cases[:2]]
    r.phase("P4_correspondence", cases=len(cases), differing=len(bad))
    r.phase("P5_oracle", failing=sum(1 for o in oracles if o != "ok"))
    return r.finish()


MANIFEST = {
    "category": "proof",
    "text": ("Coq theorems (no axioms): the pending queue denotes a canonical map (drain = (scope hash, rule id)-sorted list of the last payload per key, "
             "for every enqueue sequence and both sort implementations), hence receipt order, dispositions, blockers and merged effects are a function "
             "of the candidate SET (any order, any multiplicity); effects are the canonical merge of the ops of accepted candidates only; admission "
             "restricted to the accepted ones is idempotent; the merge is a function of the op multiset. Tied to /repo by real engine ticks over "
             "generated multi-instance graphs and data-driven rewrite programs: model vs implementation on order/decisions/blockers/merged ops, and an "
             "implementation-side oracle (post-state = pre-state + accepted effects via the real op application, patch replays, identical commit under "
             "shuffled/duplicated enqueues, the legacy scheduler and other worker counts, batches above the 1024 threshold; the post-state also equals "
             "Patch.apply_ops (the proved C04 model) of the merged ops on the pre-state; the same tick on a long-lived engine that already "
             "committed other ticks must commit like a fresh engine on the same pre-tick state; a third of the ticks pass descent chains so "
             "that conflicts cross instances)."),
    "note": ("Trusted: Coq kernel + vm_compute; generator and table->term translation; harness interpreter/reference merge; hooks "
             "verif_hooks::apply_ops_to_state. Modelled rather than verified: scheduler queue/reservation, merge glue of engine_impl.rs. Executors are data "
             "(their output is taken from the real executor); op application, diff, digests, state root and commit hash are exercised by the oracle, "
             "not modelled here (see C04, C05, C06)."),
}
