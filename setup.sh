#!/bin/sh
# MANIFEST.setup_cmd: build the whole framework offline from files on disk.
set -u
cd "$(dirname "$0")"
export CARGO_NET_OFFLINE=true
python3 -c "import sys; sys.path.insert(0,'lib'); import vf; vf.ensure_makefile()" || exit 1
# proofs: full .vo build; -k so that one broken file does not hide the others (each check re-runs its own target)
timeout 3000 make -C coq -j16 -k >.cache/setup-coq.log 2>&1 || echo "setup: some Coq targets failed (see .cache/setup-coq.log)"
[ -f harness/Cargo.lock ] || cp /repo/Cargo.lock harness/Cargo.lock
(cd harness && CARGO_TARGET_DIR=/verif/.cache/target timeout 3000 cargo build --offline --bins >../.cache/setup-cargo.log 2>&1) || echo "setup: harness build failed (see .cache/setup-cargo.log)"
exit 0
